#!/usr/bin/env python3
"""Translator for C03: the two name->operation tables of scryer-prolog's arithmetic, regenerated from the CURRENT source
into coq/Gen/EvalTables.v.

 (a) compiled path:  src/arithmetic.rs  push_literal (constants), get_unary_instr / get_binary_instr (name -> Instruction::X),
                     src/machine/dispatch.rs  `&Instruction::X(ref a1, ..) => self.machine_st.x_instr(..)`  and the body of `fn x_instr`
 (b) run-time path:  src/machine/arithmetic_ops.rs  arith_eval_by_metacall  (`match name` per arity)

Both are reduced to one vocabulary: "<function of arithmetic_ops.rs>(<operand order>)[flags]" where the flags record the wrappers
that change the result (tnr = try_numeric_result!, Float = Number::Float(OrderedFloat(..)), Rational, rfn = operands converted by
rational_from_number), "identity", "sign()" (Number::sign method) and "const:<path>".
Anything whose shape is not recognised raises (the tie is then broken and reported)."""
import os, re, sys


class Shape(Exception):
    pass


def fail(msg):
    raise Shape("gen/eval_tables: " + msg)


# ---------------------------------------------------------------- small Rust-text helpers
def skip_string(s, i):
    """s[i] == '"' -> index after the closing quote"""
    j = i + 1
    while j < len(s):
        if s[j] == "\\":
            j += 2
            continue
        if s[j] == '"':
            return j + 1
        j += 1
    fail("unterminated string literal")


def matching(s, i):
    """s[i] in '({[' -> index of the matching closer"""
    pairs = {"(": ")", "{": "}", "[": "]"}
    stack = []
    j = i
    while j < len(s):
        c = s[j]
        if c == '"':
            j = skip_string(s, j)
            continue
        if c == "'" and j + 2 < len(s) and s[j + 2] == "'":      # char literal like '{'
            j += 3
            continue
        if c in pairs:
            stack.append(pairs[c])
        elif c in ")}]":
            if not stack or stack.pop() != c:
                fail("unbalanced brackets")
            if not stack:
                return j
        j += 1
    fail("unbalanced brackets")


def strip_comments(s):
    out, i = [], 0
    while i < len(s):
        if s[i] == '"':
            j = skip_string(s, i)
            out.append(s[i:j]); i = j; continue
        if s.startswith("//", i):
            j = s.find("\n", i)
            i = len(s) if j < 0 else j
            continue
        if s.startswith("/*", i):
            j = s.find("*/", i)
            if j < 0: fail("unterminated comment")
            i = j + 2
            continue
        out.append(s[i]); i += 1
    return "".join(out)


def norm_ws(s):
    return re.sub(r"\s+", " ", s).strip()


def fn_body(src, pattern, what):
    m = re.search(pattern, src)
    if not m:
        fail("%s not found" % what)
    i = src.find("{", m.end() - 1)
    j = matching(src, i)
    return src[i + 1:j]


def match_body(body, head, what, start=0):
    i = body.find(head, start)
    if i < 0:
        fail("%s: `%s` not found" % (what, head))
    b = body.find("{", i + len(head) - 1)
    e = matching(body, b)
    return body[b + 1:e], e


def split_top(s, sep):
    """split at top-level occurrences of the separator character"""
    parts, depth, i, cur = [], 0, 0, []
    while i < len(s):
        c = s[i]
        if c == '"':
            j = skip_string(s, i)
            cur.append(s[i:j]); i = j; continue
        if c in "({[":
            j = matching(s, i)
            cur.append(s[i:j + 1]); i = j + 1; continue
        if c == sep:
            parts.append("".join(cur)); cur = []; i += 1; continue
        cur.append(c); i += 1
    parts.append("".join(cur))
    return [p.strip() for p in parts if p.strip()]


def arms(body, what):
    """split a `match` body into (pattern, expression-or-block) arms"""
    out, i, n = [], 0, len(body)
    while True:
        while i < n and body[i] in " \n\t,":
            i += 1
        if i >= n:
            break
        k = i
        # pattern up to top-level `=>`
        while True:
            if k >= n: fail("%s: arm without `=>` near %r" % (what, body[i:i + 60]))
            if body[k] == '"':
                k = skip_string(body, k); continue
            if body[k] in "({[":
                k = matching(body, k) + 1; continue
            if body.startswith("=>", k):
                break
            k += 1
        pat = body[i:k].strip()
        j = k + 2
        while j < n and body[j] in " \n\t":
            j += 1
        if j < n and body[j] == "{":
            e = matching(body, j)
            out.append((pat, body[j:e + 1]))
            i = e + 1
        else:
            e = j
            while e < n:
                if body[e] == '"':
                    e = skip_string(body, e); continue
                if body[e] in "({[":
                    e = matching(body, e) + 1; continue
                if body[e] == ",":
                    break
                e += 1
            out.append((pat, body[j:e].strip()))
            i = e + 1
    return out


def atom_of(pat, what):
    m = re.fullmatch(r'atom!\("((?:[^"\\]|\\.)*)"\)', pat)
    if not m:
        fail("%s: arm pattern not recognised: %r" % (what, pat))
    name, out, i = m.group(1), [], 0
    while i < len(name):
        if name[i] == "\\":
            if i + 1 < len(name) and name[i + 1] in "\\\"":
                out.append(name[i + 1]); i += 2; continue
            fail("%s: unexpected escape in atom %r" % (what, name))
        out.append(name[i]); i += 1
    return "".join(out)


# ---------------------------------------------------------------- the common vocabulary
OPERAND = {"a1": 1, "n1": 1, "r1": 1, "n": 1, "a2": 2, "n2": 2, "r2": 2}


def peel(e, what, flags=None):
    """expression -> canonical operation text"""
    flags = set() if flags is None else flags
    e = norm_ws(e)
    while True:
        m = re.fullmatch(r"(try_or_throw_gen|drop_iter_on_err|try_numeric_result|arena_alloc)!\((.*)\)", e)
        if m:
            args = split_top(m.group(2), ",")
            mac = m.group(1)
            if mac == "try_or_throw_gen" and len(args) == 2 and args[0] == "self":
                e = args[1]
            elif mac == "drop_iter_on_err" and len(args) == 3 and args[0] == "self" and args[1] == "iter":
                e = args[2]
            elif mac == "try_numeric_result" and len(args) == 2 and args[1] == "stub_gen":
                flags.add("tnr"); e = args[0]
            elif mac == "arena_alloc" and len(args) == 2 and args[1] == "&mut self.arena":
                e = args[0]
            else:
                fail("%s: macro use not recognised: %r" % (what, e))
            continue
        m = re.fullmatch(r"Number::Float\(OrderedFloat\((.*)\)\)", e)
        if m and matching(e, len("Number::Float")) == len(e) - 1:
            flags.add("Float"); e = m.group(1).strip().rstrip(",").strip(); continue
        m = re.fullmatch(r"Number::Rational\((.*)\)", e)
        if m and matching(e, len("Number::Rational")) == len(e) - 1:
            flags.add("Rational"); e = m.group(1).strip(); continue
        break
    fl = "[" + ",".join(sorted(flags)) + "]" if flags else ""
    if e in OPERAND and OPERAND[e] == 1:
        return "identity" + fl
    m = re.fullmatch(r"(\w+)\.sign\(\)", e)
    if m and OPERAND.get(m.group(1)) == 1:
        return "sign()" + fl
    m = re.fullmatch(r"((?:std::)?f64::(?:consts::)?\w+)", e)
    if m:
        return "const:" + re.sub(r"^std::", "", e) + fl
    m = re.fullmatch(r"(\w+)\((.*)\)", e)
    if m and matching(e, len(m.group(1))) == len(e) - 1:
        order = []
        for a in split_top(m.group(2), ","):
            if a in OPERAND:
                order.append(str(OPERAND[a]))
            elif a == "&mut self.arena" or re.fullmatch(r'atom!\("[^"]*"\)', a):
                pass                      # the arena; pow's culprit atom only reaches the error context
            else:
                fail("%s: argument not recognised in %r" % (what, e))
        if order not in (["1"], ["1", "2"], ["2", "1"]):
            fail("%s: operand list not recognised in %r" % (what, e))
        return "%s(%s)%s" % (m.group(1), ",".join(order), fl)
    fail("%s: expression shape not recognised: %r" % (what, e))


# ---------------------------------------------------------------- (a) compiled path
def compiled_table(repo):
    ar = strip_comments(open(os.path.join(repo, "src/arithmetic.rs")).read())
    dp = strip_comments(open(os.path.join(repo, "src/machine/dispatch.rs")).read())
    ops = strip_comments(open(os.path.join(repo, "src/machine/arithmetic_ops.rs")).read())
    table = []

    # constants: push_literal
    body = fn_body(ar, r"fn push_literal\(", "push_literal")
    mb, _ = match_body(body, "match c {", "push_literal")
    for pat, rhs in arms(mb, "push_literal"):
        p = norm_ws(pat)
        if re.fullmatch(r"&?Literal::(Fixnum|Integer|F64|Rational)\(.*\)", p):
            continue
        if p == "_":
            if "NonEvaluableFunctor" not in rhs: fail("push_literal: default arm is not the non-evaluable error")
            continue
        m = re.fullmatch(r'Literal::Atom\(name\) if name == &atom!\("(\w+)"\)', p)
        if not m:
            fail("push_literal: arm not recognised: %r" % p)
        r = norm_ws(rhs)
        m2 = re.fullmatch(r"interm\.push\(ArithmeticTerm::Number\((.*)\)\)", r)
        if not m2:
            fail("push_literal: constant arm body not recognised: %r" % r)
        table.append(((m.group(1), 0), peel(m2.group(1).strip().rstrip(",").strip(), "push_literal " + m.group(1))))

    # name -> Instruction
    name2instr = {}
    for fn, ar_n, args in (("get_unary_instr", 1, "a1, t"), ("get_binary_instr", 2, "a1, a2, t")):
        body = fn_body(ar, r"fn %s\(" % fn, fn)
        mb, _ = match_body(body, "match name {", fn)
        for pat, rhs in arms(mb, fn):
            if pat.strip() == "_":
                if not re.fullmatch(r"Err\(ArithmeticError::NonEvaluableFunctor\(Literal::Atom\(name\), %d\)\)" % ar_n, norm_ws(rhs)):
                    fail("%s: default arm not recognised: %r" % (fn, rhs))
                continue
            name = atom_of(pat.strip(), fn)
            m = re.fullmatch(r"Ok\(Instruction::(\w+)\(%s\)\)" % re.escape(args), norm_ws(rhs))
            if not m:
                fail("%s: arm body not recognised: %r" % (fn, rhs))
            if (name, ar_n) in name2instr:
                fail("%s: duplicate arm for %s/%d" % (fn, name, ar_n))
            name2instr[(name, ar_n)] = m.group(1)
    # instr_from_clause dispatches on the arity exactly to these two
    ifc = norm_ws(fn_body(ar, r"fn instr_from_clause\(", "instr_from_clause"))
    if not (re.search(r"match arity \{ 1 => \{.*?self\.get_unary_instr\(name, a1, arg\) \} 2 => \{.*?self\.get_binary_instr\(name, a1, a2, arg\) \} _ => Err\(ArithmeticError::NonEvaluableFunctor\(", ifc)):
        fail("instr_from_clause: shape not recognised")

    # Instruction -> *_instr function
    instr2fn = {}
    for m in re.finditer(r"&Instruction::(\w+)\(ref a1(, ref a2)?, t\) =>\s*(?:\{\s*)?self\.machine_st\.(\w+)\(a1(, a2)?, t\)", dp):
        if bool(m.group(2)) != bool(m.group(4)):
            fail("dispatch arm for Instruction::%s passes a different number of operands" % m.group(1))
        instr2fn[m.group(1)] = (m.group(3), 2 if m.group(2) else 1)

    # get_rational = get_number + rational_from_number
    gr = norm_ws(fn_body(ops, r"pub fn get_rational\(", "get_rational"))
    if not re.search(r"let n = self\.get_number\(at\)\?; match rational_from_number\(n, caller, &mut self\.arena\)", gr):
        fail("get_rational: shape not recognised")

    for (name, ar_n), instr in sorted(name2instr.items()):
        if instr not in instr2fn:
            fail("no dispatch arm of the recognised shape for Instruction::%s" % instr)
        fn, n_ops = instr2fn[instr]
        if n_ops != ar_n:
            fail("Instruction::%s: arity mismatch between arithmetic.rs and dispatch.rs" % instr)
        sig = r"fn %s\(&mut self, a1: &ArithmeticTerm, %st: usize\)" % (fn, "a2: &ArithmeticTerm, " if ar_n == 2 else "")
        body = fn_body(dp, sig, "fn " + fn)
        table.append(((name, ar_n), instr_body_op(body, ar_n, fn)))
    return table


def instr_body_op(body, arity, fn):
    stmts = split_top(body, ";")
    bound, flags, value, result = {}, set(), None, None
    for s in stmts:
        s = norm_ws(s)
        if re.fullmatch(r'let stub_gen = \|\| functor_stub\(atom!\("[^"]*"\), 2\)', s):
            continue                                   # error context only
        m = re.fullmatch(r"let (n|n1|n2) = try_or_throw!\(self, self\.get_number\((a1|a2)\), return\)", s)
        if m:
            bound[m.group(1)] = m.group(2); continue
        m = re.fullmatch(r"let (r1|r2) = try_or_throw!\(self, self\.get_rational\((a1|a2), stub_gen\), return\)", s)
        if m:
            bound[m.group(1)] = m.group(2); flags.add("rfn"); continue
        m = re.fullmatch(r"let value = (.*)", s)
        if m:
            value = m.group(1); continue
        m = re.fullmatch(r"self\.registers\[t\] = HeapCellValue::from\(\((\w+), &mut self\.arena\)\)", s)
        if m:
            result = m.group(1); continue
        if s == "self.p += 1":
            continue
        fail("fn %s: statement not recognised: %r" % (fn, s))
    for v, a in bound.items():
        if OPERAND[v] != OPERAND[a]:
            fail("fn %s: %s is bound to %s" % (fn, v, a))
    if sorted(set(bound.values())) != ["a1", "a2"][:arity]:
        fail("fn %s: operands fetched are %r" % (fn, sorted(bound.values())))
    if result == "value" and value is not None:
        return peel(value, "fn " + fn, flags)
    if result in bound and value is None:
        return peel(result, "fn " + fn, flags)
    fail("fn %s: result shape not recognised" % fn)


# ---------------------------------------------------------------- (b) run-time path
def meta_table(repo):
    ops = strip_comments(open(os.path.join(repo, "src/machine/arithmetic_ops.rs")).read())
    body = fn_body(ops, r"pub\(crate\) fn arith_eval_by_metacall\(", "arith_eval_by_metacall")
    i = body.find("(HeapCellValueTag::Atom, (name, arity)) => {", body.find("let value = unmark_cell_bits!(value)"))
    if i < 0:
        fail("arith_eval_by_metacall: the Atom arm of the tree walk was not found")
    b = body.find("{", i + len("(HeapCellValueTag::Atom, (name, arity)) =>"))
    atom_arm = body[b + 1:matching(body, b)]
    table = []
    pos = 0
    heads = [("if arity == 2 {", 2), ("else if arity == 1 {", 1), ("else if arity == 0 {", 0)]
    for head, ar_n in heads:
        h = atom_arm.find(head, pos)
        if h < 0:
            fail("arith_eval_by_metacall: `%s` not found" % head)
        hb = atom_arm.find("{", h + len(head) - 1)
        he = matching(atom_arm, hb)
        section = atom_arm[hb + 1:he]
        pos = he
        pre = norm_ws(section[:section.find("match name {")])
        want = {2: "let a2 = interms.pop().unwrap(); let a1 = interms.pop().unwrap();", 1: "let a1 = interms.pop().unwrap();", 0: ""}[ar_n]
        if pre != want:
            fail("arith_eval_by_metacall arity %d: operand fetch not recognised: %r" % (ar_n, pre))
        mb, me = match_body(section, "match name {", "arith_eval_by_metacall arity %d" % ar_n)
        post = norm_ws(section[me + 1:])
        if post != ("continue;" if ar_n else ""):
            fail("arith_eval_by_metacall arity %d: code after the match not recognised: %r" % (ar_n, post))
        seen = set()
        for pat, rhs in arms(mb, "arith_eval_by_metacall arity %d" % ar_n):
            if pat.strip() == "_":
                r = norm_ws(rhs)
                if ar_n == 0:
                    if r != "{ }": fail("arity 0 default arm not recognised: %r" % r)
                elif "ValidType::Evaluable" not in r or "functor_stub(name, %d)" % ar_n not in r:
                    fail("arity %d default arm is not type_error(evaluable, name/%d): %r" % (ar_n, ar_n, r))
                continue
            name = atom_of(pat.strip(), "arith_eval_by_metacall")
            if name in seen:
                fail("arith_eval_by_metacall: duplicate arm %s/%d" % (name, ar_n))
            seen.add(name)
            table.append(((name, ar_n), meta_arm_op(rhs, name, ar_n)))
    tail = norm_ws(atom_arm[pos + 1:])
    if not (tail.startswith("std::mem::drop(iter); let evaluable_error = self.evaluable_error(name, arity);") and "return Err(" in tail):
        fail("arith_eval_by_metacall: fall-through after the arity tests is not the evaluable error: %r" % tail[:120])
    return table


def meta_arm_op(rhs, name, ar_n):
    what = "arith_eval_by_metacall %s/%d" % (name, ar_n)
    r = norm_ws(rhs)
    m = re.fullmatch(r"interms\.push\((.*)\)", r)
    if m and matching(r, len("interms.push")) == len(r) - 1:
        return peel(m.group(1).strip().rstrip(",").strip(), what)
    if r.startswith("{") and r.endswith("}"):
        flags, value, pushed, bound = set(), None, None, {}
        for s in split_top(r[1:-1], ";"):
            s = norm_ws(s)
            m = re.fullmatch(r"let (r1|r2) = drop_iter_on_err!\( ?self, iter, rational_from_number\((a1|a2), stub_gen, &mut self\.arena\) ?\)", s)
            if m:
                if OPERAND[m.group(1)] != OPERAND[m.group(2)]: fail("%s: %s bound to %s" % (what, m.group(1), m.group(2)))
                bound[m.group(1)] = m.group(2); flags.add("rfn"); continue
            m = re.fullmatch(r"let result = (.*)", s)
            if m:
                value = m.group(1); continue
            m = re.fullmatch(r"interms\.push\((.*)\)", s)
            if m:
                pushed = m.group(1); continue
            if s == "continue":
                continue
            fail("%s: statement not recognised: %r" % (what, s))
        if pushed is None:
            fail("%s: nothing is pushed" % what)
        if value is not None:
            if "result" not in pushed: fail("%s: result is not pushed" % what)
            if flags and sorted(bound.values()) != ["a1", "a2"]: fail("%s: operand conversion not recognised" % what)
            pushed = pushed.replace("result", "(%s)" % value) if False else pushed
            m = re.fullmatch(r"Number::Rational\(result\)", pushed)
            if not m: fail("%s: push of result not recognised: %r" % (what, pushed))
            flags.add("Rational")
            return peel(value, what, flags)
        return peel(pushed, what, flags)
    fail("%s: arm body not recognised: %r" % (what, r[:200]))


# ---------------------------------------------------------------- output
def coq_string(s):
    return '"' + s.replace('"', '""') + '"'


def render(compiled, meta):
    def tbl(name, rows):
        return "Definition %s : list ((string * N) * string) :=\n  [ %s ].\n" % (
            name, ";\n    ".join("((%s, %d%%N), %s)" % (coq_string(k[0]), k[1], coq_string(v)) for k, v in rows))
    return ("(* GENERATED by gen/eval_tables.py from src/arithmetic.rs, src/machine/dispatch.rs, src/machine/arithmetic_ops.rs -- do not edit *)\n"
            "From Coq Require Import String NArith List.\nImport ListNotations.\nOpen Scope string_scope.\n\n"
            "(* (name, arity) -> operation finally invoked, compiled path (get_unary_instr/get_binary_instr/push_literal -> Instruction -> *_instr) *)\n"
            + tbl("compiled_tbl", compiled) +
            "\n(* (name, arity) -> operation invoked by the run-time tree walker arith_eval_by_metacall *)\n"
            + tbl("meta_tbl", meta))


def tables(repo):
    return compiled_table(repo), meta_table(repo)


def generate(repo, out):
    c, m = tables(repo)
    txt = render(c, m)
    os.makedirs(os.path.dirname(out), exist_ok=True)
    if not os.path.exists(out) or open(out).read() != txt:
        open(out, "w").write(txt)
    return c, m


if __name__ == "__main__":
    c, m = generate(sys.argv[1] if len(sys.argv) > 1 else "/repo",
                    os.path.join(os.path.dirname(os.path.dirname(os.path.abspath(__file__))), "coq/Gen/EvalTables.v"))
    dc, dm = dict(c), dict(m)
    for k in sorted(set(dc) | set(dm)):
        print("%-24s %-40s %-40s %s" % ("%s/%d" % k, dc.get(k), dm.get(k), "" if dc.get(k) == dm.get(k) else "<-- DIFFERENT"))
