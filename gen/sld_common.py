"""Shared by checks/C07.py, C08.py, C12.py, C25.py: Prolog text / Coq text of programs for the reference
interpreter coq/Engine/Sld.v, the random program generator, the implementation runner and the Coq evaluation driver.

Terms are the tuples of tools/vlib/terms.py.  A clause is (head, body); a program is a list of clauses."""
import json, os, re, shutil, subprocess, time
from vlib import core, terms

NIL = terms.NIL
TRUE = ("atom", "true")


def A(s): return ("atom", s)
def I(n): return ("int", n)
def V(n): return ("var", n)
def C(f, *args): return ("cmp", f, list(args))
def L(items, tail=NIL): return terms.mklist(list(items), tail)


def conj(goals):
    goals = list(goals)
    if not goals: return TRUE
    t = goals[-1]
    for g in reversed(goals[:-1]):
        t = C(",", g, t)
    return t


# ------------------------------------------------------------------ Prolog text with operators
_BIN = {",": 1000, ";": 1100, "->": 1050, "=": 700, "\\=": 700, "==": 700, "\\==": 700, "is": 700, "<": 700, "=<": 700, ">": 700,
        ">=": 700, "=:=": 700, "=\\=": 700, "+": 500, "-": 500, "*": 400, "//": 400, "^": 200, ":-": 1200}


def pl(t, prec=999):
    """Readable Prolog text (operators for control and arithmetic, everything else canonical)."""
    k = t[0]
    if k != "cmp":
        s = terms.to_prolog(t)
        if k == "atom" and prec < 1200 and t[1] in _BIN or (k == "atom" and t[1] in ("\\+", "-", "+", ":-", "dynamic", "discontiguous")):
            return "(%s)" % s
        return s
    f, args = t[1], t[2]
    if f == "." and len(args) == 2:
        items, tail = terms.list_view(t)
        body = ",".join(pl(x, 999) for x in items)
        return "[%s]" % body if tail == NIL else "[%s|%s]" % (body, pl(tail, 999))
    if len(args) == 2 and f in _BIN:
        p = _BIN[f]
        if f in (",", ";", "->", "^"):       # xfy
            lp, rp = p - 1, p
        elif f in ("+", "-", "*", "//"):      # yfx
            lp, rp = p, p - 1
        else:
            lp, rp = p - 1, p - 1
        sep = "," if f == "," else " %s " % f
        s = "%s%s%s" % (pl(args[0], lp), sep, pl(args[1], rp))
        return "(%s)" % s if p > prec else s
    if len(args) == 1 and f == "\\+":
        return "\\+ (%s)" % pl(args[0], 1200)
    if len(args) == 1 and f == "-":
        return "-(%s)" % pl(args[0], 999)
    return "%s(%s)" % (terms.quote_atom(f), ",".join(pl(x, 999) for x in args))


def clause_text(c):
    h, b = c
    if b == TRUE:
        return "%s." % pl(h, 999)
    return "%s :- %s." % (pl(h, 999), pl(b, 1199))


def program_text(prog):
    return "\n".join(clause_text(c) for c in prog) + "\n"


# ------------------------------------------------------------------ Coq text
# (written for `Open Scope N_scope`: scope delimiters on every literal make coqc's elaboration ~50x slower)
def cname(s):
    return "[" + ";".join("%d" % ord(c) for c in s) + "]"


def tcoq(t, m=None):
    k = t[0]
    if k == "var":
        n = t[1] if isinstance(t[1], int) else m[t[1]]
        return "Var %d" % n
    if k == "int":
        return "Int %d%%Z" % t[1] if t[1] >= 0 else "Int (%d)%%Z" % t[1]
    if k == "atom":
        return "Atom %s" % cname(t[1])
    if k == "cmp":
        return "Cmp %s [%s]" % (cname(t[1]), "; ".join(tcoq(x, m) for x in t[2]))
    raise ValueError("term kind not supported by the Sld model: %r" % (t,))


def clause_coq(c):
    h, b = c
    vs = terms.term_vars(C("c", h, b))
    m = {v: i for i, v in enumerate(vs)}
    return "(%s, %s)" % (tcoq(h, m), tcoq(b, m))


def program_coq(prog):
    return "[" + ";\n ".join(clause_coq(c) for c in prog) + "]"


def query_coq(q, tmpl):
    vs = terms.term_vars(C("q", tmpl, q))
    m = {v: i for i, v in enumerate(vs)}
    return "(%s)" % tcoq(q, m), "(%s)" % tcoq(tmpl, m)


def terms_coq(ts):
    return "[" + "; ".join(tcoq(t) for t in ts) + "]"


def norm_err(t):
    if t[0] == "cmp":
        if t[1] == "error" and len(t[2]) == 2:
            return ("cmp", "error", [norm_err(t[2][0]), A("ctx")])
        return ("cmp", t[1], [norm_err(x) for x in t[2]])
    return t


def normt(t):
    return terms.number_vars([norm_err(t)])[0]


IMPORTS = "From V Require Import Base.Term Engine.Sld."


def coq_eval_codes(prop, imports, defs, exprs, chunk=150, timeout=600, tag="cases", nproc=None):
    """defs: dict name -> (coq type, coq expression) shared definitions, each emitted only in the shards that use it
    (detected by the name occurring in a case).  exprs: Coq expressions of type N.
    Returns (codes: list of int or None, errors)."""
    nproc = nproc or core.NPROC
    d = os.path.join(core.WORK, prop, tag)
    shutil.rmtree(d, ignore_errors=True)
    os.makedirs(d)
    shards = [list(range(i, min(i + chunk, len(exprs)))) for i in range(0, len(exprs), chunk)]
    codes = [None] * len(exprs)
    errors = []
    name_re = re.compile(r"\b(%s)\b" % "|".join(re.escape(n) for n in defs)) if defs else None

    def launch(k, idxs):
        path = os.path.join(d, "s%d.v" % k)
        with open(path, "w") as f:
            f.write("From Coq Require Import List ZArith NArith.\nImport ListNotations.\n")
            f.write(imports + "\nOpen Scope N_scope.\n")
            used = []
            if name_re:
                seen = set()
                for i in idxs:
                    for n in name_re.findall(exprs[i]):
                        if n not in seen:
                            seen.add(n); used.append(n)
            for n in used:
                ty, ex = defs[n]
                f.write("Definition %s : %s := %s.\n" % (n, ty, ex))
            for j, i in enumerate(idxs):
                f.write("Definition c%d : N := %s.\n" % (j, exprs[i]))
            f.write("Definition all : list N := [%s].\n" % "; ".join("c%d" % j for j in range(len(idxs))))
            f.write("Eval vm_compute in all.\n")
        return subprocess.Popen(["coqc", "-noglob", "-Q", core.COQ, "V", "-o", path + "o", path],
                                stdout=subprocess.PIPE, stderr=subprocess.STDOUT, text=True)

    pending = list(enumerate(shards))
    running = []
    while pending or running:
        while pending and len(running) < nproc:
            k, idxs = pending.pop(0)
            running.append((k, idxs, launch(k, idxs), time.time()))
        still = []
        for k, idxs, p, t0 in running:
            if p.poll() is None:
                if time.time() - t0 > timeout:
                    p.kill()
                    errors.append((k, "timeout in shard %d (cases %d..%d)" % (k, idxs[0], idxs[-1])))
                else:
                    still.append((k, idxs, p, t0))
                continue
            out = p.stdout.read()
            if p.returncode != 0:
                errors.append((k, out[-3000:]))
                continue
            m = re.search(r"=\s*\[(.*?)\]\s*:\s*list N", out, re.S)
            if not m:
                errors.append((k, "unparsed: " + out[-1000:]))
                continue
            vals = re.findall(r"\d+", m.group(1))
            if len(vals) != len(idxs):
                errors.append((k, "wrong number of results"))
                continue
            for i, v in zip(idxs, vals):
                codes[i] = int(v)
        running = still
        if running:
            time.sleep(0.05)
    return codes, errors


# ------------------------------------------------------------------ implementation runner
LOG_DEFS = ":- dynamic(logged/1).\nlog(T) :- assertz(logged(T)).\n"
HEADER = ":- use_module(library(lists)).\n:- use_module(library(iso_ext)).\n"


def observe(res):
    """vrun result list of one query -> ("ok", [answer terms], ball or None) | ("drop", why)"""
    answers, ball = [], None
    for a in res:
        if a == "false" or a == "true":
            continue
        if a == "more":
            return ("drop", "more")
        if isinstance(a, dict) and "b" in a:
            if "Ans__" not in a["b"]:
                return ("drop", "no Ans__ binding: %r" % (a,))
            answers.append(normt(terms.from_json(a["b"]["Ans__"])))
        elif isinstance(a, dict) and ("err" in a or "exc" in a):
            ball = normt(terms.from_json(a.get("err", a.get("exc"))))
        elif isinstance(a, dict) and "panic" in a:
            return ("panic", a["panic"])
        else:
            return ("drop", "unknown %r" % (a,))
    return ("ok", answers, ball)


def is_timeout_ball(ball):
    return ball is not None and "interrupt" in json.dumps(ball)


def query_text(q, tmpl):
    return "Ans__ = %s, %s." % (pl(tmpl, 999), pl(q, 999))


def run_impl(prop, jobs_in, tag="impl", max_answers=60, timeout_ms=4000, fresh_every=20):
    """jobs_in: list of {"id", "text": consult text, "queries": [(q, tmpl)], "log": bool}.
    Returns {id: [obs per query]} with obs = ("ok", answers, ball, log) | ("drop", why) | ("panic", msg)."""
    jobs = []
    for n, j in enumerate(jobs_in):
        qs = []
        for (q, tmpl) in j["queries"]:
            if j.get("log"):
                qs.append("retractall(logged(_)).")
            qs.append(query_text(q, tmpl))
            if j.get("log"):
                qs.append("findall(T__, logged(T__), Ans__).")
        jobs.append({"id": j["id"], "consult": j["text"], "queries": qs, "max_answers": max_answers + 1,
                     "timeout_ms": timeout_ms, "fresh": n % fresh_every == 0 or bool(j.get("fresh"))})
    res = core.vrun_query(prop, jobs, tag=tag)
    out = {}
    for j in jobs_in:
        r = res.get(j["id"])
        obs = []
        if r is None or "results" not in r or not isinstance(r["results"], list):
            out[j["id"]] = [("drop", "no result: %s" % json.dumps(r)[:300])] * len(j["queries"])
            continue
        rs = r["results"]
        step = 3 if j.get("log") else 1
        for i in range(len(j["queries"])):
            base = i * step + (1 if j.get("log") else 0)
            if base >= len(rs):
                obs.append(("drop", "missing")); continue
            o = observe(rs[base])
            if o[0] == "ok":
                if len(o[1]) > max_answers:
                    o = ("drop", "more")
                elif is_timeout_ball(o[2]):
                    o = ("drop", "timeout")
            if o[0] == "ok":
                log = []
                if j.get("log"):
                    lo = observe(rs[base + 1]) if base + 1 < len(rs) else ("drop", "missing log")
                    if lo[0] != "ok" or len(lo[1]) != 1:
                        obs.append(("drop", "log query: %r" % (lo,))); continue
                    items, tail = terms.list_view(lo[1][0])
                    # the log list was normalised as a whole: re-normalise each entry
                    log = [normt(x) for x in items]
                o = ("ok", o[1], o[2], log)
            obs.append(o)
        out[j["id"]] = obs
    return out


def check_expr(progname, q, tmpl, obs, fuel="default_fuel", cap=60):
    cq, ct = query_coq(q, tmpl)
    ball = "None" if obs[2] is None else "(Some (%s))" % tcoq(obs[2])
    return "check_run %s %s %s %s %d%%nat %s %s %s" % (fuel, progname, cq, ct, cap, terms_coq(obs[1]), ball, terms_coq(obs[3]))


def show_model(prop, progcoq, q, tmpl, fuel="default_fuel"):
    cq, ct = query_coq(q, tmpl)
    return core.coq_eval_show(prop, IMPORTS + "\nOpen Scope N_scope.", "match solve %s %s %s %s with Done a b l => Done (map normt a) (option_map normt b) (map normt l) | x => x end" % (fuel, progcoq, cq, ct))
