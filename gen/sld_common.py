"""Shared by checks/C07.py, C08.py, C12.py, C25.py: Prolog text / Coq text of programs for the reference
interpreter coq/Engine/Sld.v, the random program generator, the implementation runner and the Coq evaluation driver.

Terms are the tuples of tools/vlib/terms.py.  A clause is (head, body); a program is a list of clauses."""
import json, os, re, shutil, subprocess, time
from vlib import core, terms

NIL = terms.NIL
TRUE = ("atom", "true")


def A(s): return ("atom", s)
def I(n): return ("int", n)
def V(n): return ("var", n)
def C(f, *args): return ("cmp", f, list(args))
def L(items, tail=NIL): return terms.mklist(list(items), tail)


def conj(goals):
    goals = list(goals)
    if not goals: return TRUE
    t = goals[-1]
    for g in reversed(goals[:-1]):
        t = C(",", g, t)
    return t


# ------------------------------------------------------------------ Prolog text with operators
_BIN = {",": 1000, ";": 1100, "->": 1050, "=": 700, "\\=": 700, "==": 700, "\\==": 700, "is": 700, "<": 700, "=<": 700, ">": 700,
        ">=": 700, "=:=": 700, "=\\=": 700, "+": 500, "-": 500, "*": 400, "//": 400, "^": 200, ":-": 1200}


def pl(t, prec=999):
    """Readable Prolog text (operators for control and arithmetic, everything else canonical)."""
    k = t[0]
    if k != "cmp":
        s = terms.to_prolog(t)
        if k == "atom" and prec < 1200 and t[1] in _BIN or (k == "atom" and t[1] in ("\\+", "-", "+", ":-", "dynamic", "discontiguous")):
            return "(%s)" % s
        return s
    f, args = t[1], t[2]
    if f == "." and len(args) == 2:
        items, tail = terms.list_view(t)
        body = ",".join(pl(x, 999) for x in items)
        return "[%s]" % body if tail == NIL else "[%s|%s]" % (body, pl(tail, 999))
    if len(args) == 2 and f in _BIN:
        p = _BIN[f]
        if f in (",", ";", "->", "^"):       # xfy
            lp, rp = p - 1, p
        elif f in ("+", "-", "*", "//"):      # yfx
            lp, rp = p, p - 1
        else:
            lp, rp = p - 1, p - 1
        sep = "," if f == "," else " %s " % f
        s = "%s%s%s" % (pl(args[0], lp), sep, pl(args[1], rp))
        return "(%s)" % s if p > prec else s
    if len(args) == 1 and f == "\\+":
        # as an operand scryer's reader needs the parentheses (G = \\+ b is rejected)
        return ("(\\+ (%s))" if prec < 999 else "\\+ (%s)") % pl(args[0], 1200)
    if len(args) == 1 and f == "-":
        return "-(%s)" % pl(args[0], 999)
    return "%s(%s)" % (terms.quote_atom(f), ",".join(pl(x, 999) for x in args))


def clause_text(c):
    h, b = c
    if b == TRUE:
        return "%s." % pl(h, 999)
    return "%s :- %s." % (pl(h, 999), pl(b, 1199))


def program_text(prog):
    return "\n".join(clause_text(c) for c in prog) + "\n"


# ------------------------------------------------------------------ Coq text
# (written for `Open Scope N_scope`: scope delimiters on every literal make coqc's elaboration ~50x slower)
def cname(s):
    return "[" + ";".join("%d" % ord(c) for c in s) + "]"


def tcoq(t, m=None):
    k = t[0]
    if k == "var":
        n = t[1] if isinstance(t[1], int) else m[t[1]]
        return "Var %d" % n
    if k == "int":
        return "Int %d%%Z" % t[1] if t[1] >= 0 else "Int (%d)%%Z" % t[1]
    if k == "atom":
        return "Atom %s" % cname(t[1])
    if k == "cmp":
        return "Cmp %s [%s]" % (cname(t[1]), "; ".join(tcoq(x, m) for x in t[2]))
    raise ValueError("term kind not supported by the Sld model: %r" % (t,))


def clause_coq(c):
    h, b = c
    vs = terms.term_vars(C("c", h, b))
    m = {v: i for i, v in enumerate(vs)}
    return "(%s, %s)" % (tcoq(h, m), tcoq(b, m))


def program_coq(prog):
    return "[" + ";\n ".join(clause_coq(c) for c in prog) + "]"


def query_coq(q, tmpl):
    vs = terms.term_vars(C("q", tmpl, q))
    m = {v: i for i, v in enumerate(vs)}
    return "(%s)" % tcoq(q, m), "(%s)" % tcoq(tmpl, m)


def terms_coq(ts):
    return "[" + "; ".join(tcoq(t) for t in ts) + "]"


def norm_err(t):
    if t[0] == "cmp":
        if t[1] == "error" and len(t[2]) == 2:
            return ("cmp", "error", [norm_err(t[2][0]), A("ctx")])
        return ("cmp", t[1], [norm_err(x) for x in t[2]])
    return t


def normt(t):
    return terms.number_vars([norm_err(t)])[0]


IMPORTS = "From V Require Import Base.Term Engine.Sld."


def coq_eval_codes(prop, imports, defs, exprs, chunk=150, timeout=600, tag="cases", nproc=None):
    """defs: dict name -> (coq type, coq expression) shared definitions, each emitted only in the shards that use it
    (detected by the name occurring in a case).  exprs: Coq expressions of type N.
    Returns (codes: list of int or None, errors)."""
    nproc = nproc or core.NPROC
    d = os.path.join(core.WORK, prop, tag)
    shutil.rmtree(d, ignore_errors=True)
    os.makedirs(d)
    shards = [list(range(i, min(i + chunk, len(exprs)))) for i in range(0, len(exprs), chunk)]
    codes = [None] * len(exprs)
    errors = []
    name_re = re.compile(r"\b(%s)\b" % "|".join(re.escape(n) for n in defs)) if defs else None

    def launch(k, idxs):
        path = os.path.join(d, "s%d.v" % k)
        with open(path, "w") as f:
            f.write("From Coq Require Import List ZArith NArith.\nImport ListNotations.\n")
            f.write(imports + "\nOpen Scope N_scope.\n")
            used = []
            if name_re:
                seen = set()
                for i in idxs:
                    for n in name_re.findall(exprs[i]):
                        if n not in seen:
                            seen.add(n); used.append(n)
            for n in used:
                ty, ex = defs[n]
                f.write("Definition %s : %s := %s.\n" % (n, ty, ex))
            for j, i in enumerate(idxs):
                f.write("Definition c%d : N := %s.\n" % (j, exprs[i]))
            f.write("Definition all : list N := [%s].\n" % "; ".join("c%d" % j for j in range(len(idxs))))
            f.write("Eval vm_compute in all.\n")
        return subprocess.Popen(["coqc", "-noglob", "-Q", core.COQ, "V", "-o", path + "o", path],
                                stdout=subprocess.PIPE, stderr=subprocess.STDOUT, text=True)

    pending = list(enumerate(shards))
    running = []
    tstart = time.time()
    while pending or running:
        while pending and len(running) < nproc:
            k, idxs = pending.pop(0)
            running.append((k, idxs, launch(k, idxs), time.time()))
        still = []
        for k, idxs, p, t0 in running:
            if p.poll() is None:
                if time.time() - t0 > timeout:
                    p.kill()
                    errors.append((k, "timeout in shard %d (cases %d..%d)" % (k, idxs[0], idxs[-1])))
                else:
                    still.append((k, idxs, p, t0))
                continue
            out = p.stdout.read()
            if p.returncode != 0:
                errors.append((k, out[-3000:]))
                continue
            m = re.search(r"=\s*\[(.*?)\]\s*:\s*list N", out, re.S)
            if not m:
                errors.append((k, "unparsed: " + out[-1000:]))
                continue
            vals = re.findall(r"\d+", m.group(1))
            if len(vals) != len(idxs):
                errors.append((k, "wrong number of results"))
                continue
            for i, v in zip(idxs, vals):
                codes[i] = int(v)
        running = still
        if running:
            time.sleep(0.05)
    core.log("  [sld] coq: %d cases in %d shards, %.1fs" % (len(exprs), len(shards), time.time() - tstart))
    return codes, errors


# ------------------------------------------------------------------ implementation runner
LOG_DEFS = ":- dynamic(logged/1).\nlog(T) :- assertz(logged(T)).\n"
# answers are passed through an encoder (ground, no lists) so that variables, improper lists and cyclic terms never reach
# vrun's term conversion, which panics on some of them
ENC_DEFS = """vsld_enc0(T, E) :- ( acyclic_term(T) -> copy_term(T, C), term_variables(C, Vs), vsld_num(Vs, 0), vsld_enc(C, E) ; E = '$cyclic' ).
vsld_num([], _).
vsld_num(['$v'(N)|Vs], N) :- N1 is N + 1, vsld_num(Vs, N1).
vsld_enc(T, E) :- var(T), !, E = T.
vsld_enc([H|T], E) :- !, E = '$cons'(EH, ET), vsld_enc(H, EH), vsld_enc(T, ET).
vsld_enc(T, E) :- compound(T), !, T =.. [F|As], vsld_encl(As, Es), E =.. [F|Es].
vsld_enc(T, T).
vsld_encl([], []).
vsld_encl([A|As], [E|Es]) :- vsld_enc(A, E), vsld_encl(As, Es).
"""


def decode(t):
    if t[0] == "cmp":
        if t[1] == "$v" and len(t[2]) == 1 and t[2][0][0] == "int":
            return ("var", t[2][0][1])
        if t[1] == "$cons" and len(t[2]) == 2:
            return ("cmp", ".", [decode(t[2][0]), decode(t[2][1])])
        return ("cmp", t[1], [decode(x) for x in t[2]])
    return t


def has_cyclic_marker(t):
    if t[0] == "atom": return t[1] == "$cyclic"
    if t[0] == "cmp": return any(has_cyclic_marker(x) for x in t[2])
    return False
HEADER = ":- use_module(library(lists)).\n:- use_module(library(iso_ext)).\n"


def observe(res):
    """vrun result list of one query -> ("ok", [answer terms], ball or None) | ("drop", why)"""
    answers, ball = [], None
    for a in res:
        if a == "false" or a == "true":
            continue
        if a == "more":
            return ("drop", "more")
        if isinstance(a, dict) and "b" in a:
            if "Ans__" not in a["b"]:
                return ("drop", "no Ans__ binding: %r" % (a,))
            t = terms.from_json(a["b"]["Ans__"])
            if has_cyclic_marker(t):
                return ("drop", "cyclic")
            answers.append(normt(decode(t)))
        elif isinstance(a, dict) and ("err" in a or "exc" in a):
            ball = normt(decode(terms.from_json(a.get("err", a.get("exc")))))
        elif isinstance(a, dict) and "panic" in a:
            return ("panic", a["panic"])
        else:
            return ("drop", "unknown %r" % (a,))
    return ("ok", answers, ball)


def is_timeout_ball(ball):
    return ball is not None and "interrupt" in json.dumps(ball)


def query_text(q, tmpl):
    """for reports only: the query as one would type it"""
    return "%s.   %% answer template %s" % (pl(q, 999), pl(tmpl, 999))


RUN_DEFS = "vsld_call(F, A) :- call(F, G, T), call(G), vsld_enc0(T, A).\n"
PATHS = ("clause", "call")


def run_impl(prop, jobs_in, tag="impl", max_answers=60, timeout_ms=4000, fresh_every=20, paths=PATHS):
    """jobs_in: list of {"id", "text": consult text, "queries": [(q, tmpl)], "log": bool}.
    Every query is run through (path "clause") a compiled wrapper clause  vq_ID_I(A) :- Q, enc(Tmpl, A)  and (path "call")
    call/1 of the goal stored in a fact; no query variable reaches the top level (cyclic terms / improper lists would
    crash vrun's term conversion).  Returns {id: [ {path: obs} per query ]} with
    obs = ("ok", answers, ball, log) | ("drop", why) | ("panic", msg)."""
    jobs = []
    for n, j in enumerate(jobs_in):
        qs = ["vsentinel_%s, vsld_enc0(ok, Ans__)." % j["id"]]
        if j.get("setup"):
            qs.append(j["setup"])
        extra = []
        for i, (q, tmpl) in enumerate(j["queries"]):
            for path in paths:
                if j.get("log"):
                    qs.append("retractall(logged(_)), vsld_enc0(ok, Ans__).")
                if path == "clause":
                    extra.append((C("vq_%s_%d" % (j["id"], i), V("A__")), conj([q, C("vsld_enc0", tmpl, V("A__"))])))
                    qs.append("vq_%s_%d(Ans__)." % (j["id"], i))
                else:
                    extra.append((C("vg_%s_%d" % (j["id"], i), q, tmpl), TRUE))
                    qs.append("vsld_call(vg_%s_%d, Ans__)." % (j["id"], i))
                if j.get("log"):
                    qs.append("findall(T__, logged(T__), L__), vsld_enc0(L__, Ans__).")
        text = ENC_DEFS + RUN_DEFS + j["text"] + program_text(extra) + "vsentinel_%s.\n" % j["id"]
        jobs.append({"id": j["id"], "consult": text, "queries": qs, "max_answers": max_answers + 1,
                     "timeout_ms": timeout_ms, "fresh": n % fresh_every == 0 or bool(j.get("fresh"))})
    t0 = time.time()
    res = core.vrun_query(prop, jobs, tag=tag)
    core.log("  [sld] impl: %d jobs in %.1fs" % (len(jobs), time.time() - t0))
    out = {}
    step = 3 if False else 1
    for j in jobs_in:
        r = res.get(j["id"])
        nq = len(j["queries"])
        if r is not None and (r.get("hang") or r.get("crash") in (97, 101)):
            # 97: watchdog exit -- this job (or the one before it in the shard) did not react to the interrupt;
            # 101: the harness could not build a new machine after a caught panic (poisoned global state). Not a result of this job.
            out[j["id"]] = [{p: ("drop", "hang" if r.get("crash") != 101 else "harness exit after an earlier panic") for p in paths} for _ in range(nq)]
            continue
        if r is not None and "crash" in r:
            # the vrun process died (segmentation fault / abort) while running this job
            out[j["id"]] = [{p: ("panic", "process crash rc=%s %s" % (r.get("crash"), (r.get("stderr") or "")[-120:])) for p in paths[:1]} for _ in range(nq)]
            continue
        if r is None or "results" not in r or not isinstance(r["results"], list):
            out[j["id"]] = [{p: ("drop", "no result: %s" % json.dumps(r)[:300]) for p in paths} for _ in range(nq)]
            continue
        sent = observe(r["results"][0]) if r["results"] else ("drop", "no sentinel")
        if sent[0] != "ok" or sent[1] != [A("ok")] or sent[2] is not None:
            # the program text raised an error while loading (the machine is unusable afterwards): not a run of the program
            out[j["id"]] = [{p: ("drop", "load error") for p in paths} for _ in range(nq)]
            continue
        rs = r["results"][1:]
        if j.get("setup"):
            st = observe(rs[0]) if rs else ("drop", "no setup result")
            if st[0] != "ok" or st[1] != [A("ok")] or st[2] is not None:
                out[j["id"]] = [{p: ("drop", "setup failed: %r" % (st,)) for p in paths} for _ in range(nq)]
                continue
            rs = rs[1:]
        step = 3 if j.get("log") else 1
        per = []
        pos = 0
        for i in range(nq):
            d = {}
            for path in paths:
                base = pos + (1 if j.get("log") else 0)
                pos += step
                if base >= len(rs):
                    d[path] = ("drop", "missing"); continue
                o = observe(rs[base])
                if o[0] == "ok":
                    if len(o[1]) > max_answers:
                        o = ("drop", "more")
                    elif is_timeout_ball(o[2]):
                        o = ("drop", "timeout")
                if o[0] == "ok":
                    log = []
                    if j.get("log"):
                        lo = observe(rs[base + 1]) if base + 1 < len(rs) else ("drop", "missing log")
                        if lo[0] != "ok" or len(lo[1]) != 1:
                            d[path] = ("drop", "log query: %r" % (lo,)); continue
                        items, tail = terms.list_view(lo[1][0])
                        log = [normt(x) for x in items]
                    o = ("ok", o[1], o[2], log)
                d[path] = o
            per.append(d)
        out[j["id"]] = per
    return out


def check_expr(progname, q, tmpl, obs, fuel="default_fuel", cap=60, fn="check_run"):
    cq, ct = query_coq(q, tmpl)
    ball = "None" if obs[2] is None else "(Some (%s))" % tcoq(obs[2])
    return "%s %s %s %s %s %d%%nat %s %s %s" % (fn, fuel, progname, cq, ct, cap, terms_coq(obs[1]), ball, terms_coq(obs[3]))


def show_model(prop, progcoq, q, tmpl, fuel="default_fuel"):
    cq, ct = query_coq(q, tmpl)
    return core.coq_eval_show(prop, IMPORTS + "\nOpen Scope N_scope.", "match solve %s %s %s %s with Done a b l => Done (map normt a) (option_map normt b) (map normt l) | x => x end" % (fuel, progcoq, cq, ct))


# ------------------------------------------------------------------ random programs
ATOMS = ["a", "b", "c", "[]"]
INTS = [0, 1, 2, 3, -1]


class ProgGen:
    """Random programs over predicates <pfx>p0..p3 (acyclic call graph: pK calls only pJ, J > K) plus optional
    recursive list helpers; `feats` switches construct families on: cut ite naf call arith types err catch findall
    bagof log scc rec big (arity up to 8)."""

    def __init__(self, rng, pfx, feats, npreds=None):
        self.rng = rng
        self.pfx = pfx
        self.f = feats
        self.npreds = npreds or rng.choice([2, 3, 3, 4, 4])
        self.preds = []
        for i in range(self.npreds):
            ar = rng.choice([0, 1, 1, 1, 2, 2, 2, 3, 3]) if not (feats.get("big") and rng.random() < 0.25) else rng.choice([4, 5, 6, 7, 8])
            self.preds.append((pfx + "p%d" % i, ar))
        self.helpers = []
        if feats.get("rec"):
            self.helpers = [(pfx + "app", 3), (pfx + "mem", 2), (pfx + "len", 2)]
        # single-character atoms inside lists are stored as compact strings by the implementation (a different head-unification
        # path, on which it panics for some heap layouts): used in a minority of the programs
        self.atoms = ATOMS if rng.random() < 0.15 else ["aa", "bq", "cz", "[]"]
        self.est = {}     # pred name -> (answers bound, work bound)
        self.ncut_cond = 0

    # ---- terms
    def const(self):
        r = self.rng
        return A(r.choice(self.atoms)) if r.random() < 0.5 else I(r.choice(INTS))

    def var(self, vs):
        return V(self.rng.choice(vs))

    def term(self, vs, depth=2):
        r = self.rng
        x = r.random()
        if x < 0.40 or depth == 0:
            return self.var(vs) if r.random() < 0.6 else self.const()
        if x < 0.60:
            return self.const()
        if x < 0.80:
            n = r.choice([0, 1, 1, 2, 3])
            items = [self.term(vs, depth - 1) for _ in range(n)]
            tail = self.var(vs) if (r.random() < 0.3 and n > 0) else NIL
            return L(items, tail)
        f, n = r.choice([("f", 1), ("g", 2), ("f", 2), ("h", 3)])
        return C(f, *[self.term(vs, depth - 1) for _ in range(n)])

    def ground(self, depth=2):
        r = self.rng
        x = r.random()
        if x < 0.5 or depth == 0:
            return self.const()
        if x < 0.8:
            return L([self.ground(depth - 1) for _ in range(r.choice([0, 1, 2, 3]))])
        f, n = r.choice([("f", 1), ("g", 2)])
        return C(f, *[self.ground(depth - 1) for _ in range(n)])

    def expr(self, vs, depth=2):
        r = self.rng
        x = r.random()
        if depth == 0 or x < 0.35:
            return self.var(vs) if r.random() < 0.4 else I(r.choice(INTS + [5, 7]))
        if x < 0.42:
            return C("-", self.var(vs))
        op = r.choice(["+", "-", "*", "//", "+", "-"])
        e = C(op, self.expr(vs, depth - 1), self.expr(vs, depth - 1))
        if not terms.term_vars(e) and r.random() < 0.8:
            # variable-free compound operands are kept rare (the implementation miscompiles comparisons on them)
            e = C(op, self.var(vs), e[2][1]) if r.random() < 0.5 else C(op, e[2][0], self.var(vs))
        return e

    # ---- goals
    def call_goal(self, vs, later):
        r = self.rng
        name, ar = r.choice(later)
        args = [self.term(vs, 1) if r.random() < 0.35 else self.var(vs) for _ in range(ar)]
        return C(name, *args) if ar else A(name)

    def helper_goal(self, vs):
        r = self.rng
        name, ar = r.choice(self.helpers)
        gl = lambda: L([self.const() if r.random() < 0.7 else self.var(vs) for _ in range(r.choice([0, 1, 2, 3]))])
        if name.endswith("app"):
            m = r.random()
            if m < 0.5: return C(name, gl(), gl(), self.var(vs))
            if m < 0.85: return C(name, self.var(vs), self.var(vs), gl())
            return C(name, self.var(vs), gl(), self.var(vs))
        if name.endswith("mem"):
            return C(name, self.term(vs, 1), gl() if r.random() < 0.9 else self.var(vs))
        return C(name, gl() if r.random() < 0.9 else self.var(vs), self.var(vs))

    def simple_goal(self, vs, later):
        """a goal without sub-goals"""
        r = self.rng
        f = self.f
        choices = [("unify", 5), ("true", 1), ("fail", 1.2)]
        if later: choices.append(("user", 9))
        if self.helpers: choices.append(("helper", 2))
        if f.get("cut"): choices.append(("cut", 2.5))
        if f.get("arith"): choices += [("is", 2.5), ("cmp", 2.5)]
        if f.get("types"): choices += [("type", 2), ("eq", 1.5)]
        if f.get("err"): choices += [("undef", 0.25)]
        if f.get("log"): choices.append(("log", 3))
        if f.get("throw"): choices.append(("throw", 1.5))
        k = _weighted(r, choices)
        if k == "unify":
            if r.random() < 0.8:
                x = self.var(vs)
                t = self.term(vs, 2)
                for _ in range(5):
                    if t == x or x[1] not in terms.term_vars(t): break
                    t = self.term(vs, 2)
                return C("=", x, t)
            return C("=", self.term(vs, 2), self.term(vs, 2))
        if k == "true": return TRUE
        if k == "fail": return A("fail")
        if k == "user": return self.call_goal(vs, later)
        if k == "helper": return self.helper_goal(vs)
        if k == "cut": return A("!")
        if k == "is": return C("is", self.var(vs) if r.random() < 0.85 else I(r.choice(INTS)), self.expr(vs, 2))
        if k == "cmp": return C(r.choice(["<", "=<", ">", ">=", "=:=", "=\\="]), self.expr(vs, 1), self.expr(vs, 1))
        if k == "type": return C(r.choice(["var", "nonvar", "atom", "integer", "atomic", "compound"]), self.term(vs, 1) if r.random() < 0.3 else self.var(vs))
        if k == "eq": return C(r.choice(["==", "\\==", "\\="]), self.var(vs), self.term(vs, 1))
        if k == "undef": return C(self.pfx + "undef", self.var(vs))
        if k == "log": return C("log", self.term(vs, 1) if r.random() < 0.6 else A("l%d" % r.randrange(100)))
        if k == "throw": return C("throw", self.ball(vs))
        raise ValueError(k)

    def ball(self, vs):
        r = self.rng
        x = r.random()
        if x < 0.3: return self.const()
        if x < 0.4: return self.var(vs)
        if x < 0.8: return self.term(vs, 2)
        return C("error", C("my_error", self.term(vs, 1)), self.term(vs, 1))

    def goals(self, vs, later, depth, n=None, in_cond=False):
        r = self.rng
        n = n or r.choice([1, 1, 1, 2, 2])
        return conj([self.goal(vs, later, depth, in_cond) for _ in range(n)])

    def goal(self, vs, later, depth, in_cond=False):
        r = self.rng
        f = self.f
        if depth == 0 or r.random() < (0.55, 0.7, 0.65, 0.55)[min(depth, 3)]:
            g = self.simple_goal(vs, later)
            if g == A("!") and in_cond:
                # a cut inside the condition of an if-then-else (scryer: known deviation) -- kept rare
                if r.random() < 0.85:
                    return TRUE
                self.ncut_cond += 1
            return g
        choices = [("conj", 2), ("disj", 3)]
        if f.get("ite"): choices += [("ite", 3), ("it", 1)]
        if f.get("naf"): choices += [("naf", 2)]
        if f.get("call"): choices += [("call1", 2), ("calln", 1.5), ("once", 1), ("gvar", 0.7)]
        if f.get("catch"): choices += [("catch", 3)]
        if f.get("findall"): choices += [("findall", 3), ("findall4", 1), ("forall", 1)]
        if f.get("bagof"): choices += [("bagof", 2), ("setof", 2)]
        if f.get("scc"): choices += [("scc", 3)]
        k = _weighted(r, choices)
        d = depth - 1
        if k == "conj": return self.goals(vs, later, d, r.choice([2, 2, 3]), in_cond)
        if k == "disj": return C(";", self.goals(vs, later, d, None, in_cond), self.goals(vs, later, d, None, in_cond))
        if k == "ite": return C(";", C("->", self.goals(vs, later, d, None, True), self.goals(vs, later, d, None, in_cond)), self.goals(vs, later, d, None, in_cond))
        if k == "it": return C("->", self.goals(vs, later, d, None, True), self.goals(vs, later, d, None, in_cond))
        if k == "naf": return C("\\+", self.goals(vs, later, d))
        if k == "call1": return C("call", self.goals(vs, later, d))
        if k == "once": return C("once", self.goals(vs, later, d))
        if k == "gvar":
            gv = V("G%d" % r.randrange(2))
            return conj([C("=", gv, self.goals(vs, later, d)), C("call", gv) if r.random() < 0.6 else gv])
        if k == "calln":
            # a goal with its last arguments split off
            cands = [p for p in later if p[1] >= 1]
            if cands and r.random() < 0.7:
                name, ar = r.choice(cands)
                args = [self.term(vs, 1) if r.random() < 0.35 else self.var(vs) for _ in range(ar)]
                cut = r.randrange(0, ar)
                head = C(name, *args[:cut]) if cut else A(name)
                return C("call", head, *args[cut:])
            op = r.choice(["=", "==", ",", ";"])
            if op in ("=", "=="):
                a, b = self.var(vs), self.term(vs, 1)
                return C("call", A(op), a, b) if r.random() < 0.5 else C("call", C(op, a), b)
            return C("call", A(op), self.goals(vs, later, 0, 1), self.goals(vs, later, 0, 1))
        if k == "catch":
            catcher = self.catcher(vs)
            return C("catch", self.goals(vs, later, d), catcher, self.goals(vs, later, 0, r.choice([1, 1, 2])))
        if k == "findall":
            return C("findall", self.term(vs, 1), self.goals(vs, later, d), self.result_term(vs))
        if k == "findall4":
            return C("findall", self.term(vs, 1), self.goals(vs, later, d), self.var(vs), self.result_term(vs))
        if k == "forall":
            return C("forall", self.goals(vs, later, d), self.goals(vs, later, 0, 1))
        if k in ("bagof", "setof"):
            g = self.goals(vs, later, d)
            if r.random() < 0.4:
                g = C("^", self.var(vs), g)
                if r.random() < 0.3:
                    g = C("^", self.var(vs), g)
            tm = self.var(vs) if r.random() < 0.6 else self.term(vs, 1)
            return C(k, tm, g, self.result_term(vs))
        if k == "scc":
            return C("setup_call_cleanup", self.goals(vs, later, 0, 1), self.goals(vs, later, d), C("log", A("cl%d" % r.randrange(1000))))
        raise ValueError(k)

    def catcher(self, vs):
        r = self.rng
        x = r.random()
        if x < 0.35: return self.var(vs)
        if x < 0.5: return C("error", self.var(vs), V("_"))
        if x < 0.6: return C("error", C("type_error", self.var(vs), V("_")), V("_"))
        return self.ball(vs)

    def result_term(self, vs):
        r = self.rng
        x = r.random()
        if x < 0.75: return self.var(vs)
        if x < 0.9: return L([self.var(vs) for _ in range(r.choice([0, 1, 2]))], self.var(vs) if r.random() < 0.5 else NIL)
        return L([self.ground(1) for _ in range(r.choice([0, 1, 2]))])

    # ---- clauses
    def head_arg(self, vs, first):
        r = self.rng
        x = r.random()
        if x < 0.45: return self.var(vs)
        if first:
            # shapes the first-argument indexing distinguishes
            y = r.random()
            if y < 0.3: return A(r.choice(self.atoms))
            if y < 0.55: return I(r.choice(INTS))
            if y < 0.8: return L([self.var(vs)], self.var(vs)) if r.random() < 0.6 else L([self.term(vs, 1) for _ in range(r.choice([0, 1, 2]))])
            return C(r.choice(["f", "g"]), self.var(vs)) if r.random() < 0.5 else C("g", self.term(vs, 1), self.var(vs))
        return self.term(vs, 2)

    def clause(self, idx):
        r = self.rng
        name, ar = self.preds[idx]
        later = self.preds[idx + 1:]
        nv = r.choice([1, 2, 3, 3, 4, 5])
        vs = ["X%d" % i for i in range(nv)]
        args = [self.head_arg(vs, i == 0) for i in range(ar)]
        head = C(name, *args) if ar else A(name)
        if r.random() < (0.45 if later else 0.7):
            body = TRUE
        else:
            body = self.goals(vs, later, r.choice(getattr(self, "depth_choices", [0, 1, 2, 3, 3])), r.choice([1, 2, 2, 3, 3, 4]))
            if self.f.get("cut") and r.random() < 0.12:      # neck cut
                body = C(",", A("!"), body)
        return (head, body)

    def program(self):
        r = self.rng
        prog = []
        for i in range(self.npreds):
            for _ in range(r.choice([1, 2, 2, 3, 3, 4])):
                prog.append(self.clause(i))
        p = self.pfx
        if self.helpers:
            X, Y, Z, T, N, M = V("X"), V("Y"), V("Z"), V("T"), V("N"), V("M")
            prog += [(C(p + "app", NIL, X, X), TRUE), (C(p + "app", L([X], Y), Z, L([X], T)), C(p + "app", Y, Z, T)),
                     (C(p + "mem", X, L([X], V("_T"))), TRUE), (C(p + "mem", X, L([V("_Y")], T)), C(p + "mem", X, T)),
                     (C(p + "len", NIL, I(0)), TRUE), (C(p + "len", L([V("_H")], T), N), conj([C(p + "len", T, M), C("is", N, C("+", M, I(1)))]))]
        return prog

    def query(self):
        r = self.rng
        nv = r.choice([1, 2, 2, 3])
        vs = ["Q%d" % i for i in range(nv)]
        x = r.random()
        if x < 0.6:
            name, ar = r.choice(self.preds[:2]) if r.random() < 0.7 else r.choice(self.preds)
            pool = ["Q%d" % i for i in range(max(nv, min(ar, 4)))]
            r.shuffle(pool)
            args = []
            for i in range(ar):
                x = r.random()
                if x < 0.55: args.append(V(pool[i % len(pool)]))
                elif x < 0.7: args.append(self.var(vs))
                elif x < 0.85: args.append(self.ground(1))
                else: args.append(self.term(vs, 1))
            q = C(name, *args) if ar else A(name)
        else:
            q = self.goals(vs, self.preds, r.choice([1, 2]), r.choice([1, 2, 3]))
        tv = terms.term_vars(q)
        tv = [v for v in tv if not v.startswith("_")]
        return q, C("ans", *[V(v) for v in tv]) if tv else A("ans")


def _weighted(r, choices):
    tot = sum(w for _, w in choices)
    x = r.random() * tot
    for k, w in choices:
        x -= w
        if x <= 0:
            return k
    return choices[-1][0]


# ------------------------------------------------------------------ static size estimate (keeps the model's work bounded)
CONTROL2 = {",", ";", "->"}


def estimate_goal(g, est):
    """(answers bound, work bound) of a goal, ignoring failure and cuts (an over-approximation)."""
    if g[0] == "var":
        return (4, 20)
    if g[0] == "atom":
        return est.get((g[1], 0), (1, 1))
    if g[0] != "cmp":
        return (1, 1)
    f, args = g[1], g[2]
    n = len(args)
    if f == "," and n == 2:
        a1, w1 = estimate_goal(args[0], est); a2, w2 = estimate_goal(args[1], est)
        return (a1 * a2, w1 + a1 * w2)
    if f == ";" and n == 2:
        if args[0][0] == "cmp" and args[0][1] == "->" and len(args[0][2]) == 2:
            ac, wc = estimate_goal(args[0][2][0], est); at, wt = estimate_goal(args[0][2][1], est); ae, we = estimate_goal(args[1], est)
            return (max(at, ae), wc + wt + we)
        a1, w1 = estimate_goal(args[0], est); a2, w2 = estimate_goal(args[1], est)
        return (a1 + a2, w1 + w2)
    if f == "->" and n == 2:
        ac, wc = estimate_goal(args[0], est); at, wt = estimate_goal(args[1], est)
        return (at, wc + wt)
    if f in ("\\+", "once") and n == 1:
        a, w = estimate_goal(args[0], est)
        return (1, w + 1)
    if f == "call" and n >= 1:
        if n == 1:
            a, w = estimate_goal(args[0], est)
            return (a, w + 1)
        h = args[0]
        if h[0] == "atom": return estimate_goal(("cmp", h[1], args[1:]), est)
        if h[0] == "cmp": return estimate_goal(("cmp", h[1], h[2] + args[1:]), est)
        return (4, 20)
    if f == "catch" and n == 3:
        a1, w1 = estimate_goal(args[0], est); a2, w2 = estimate_goal(args[2], est)
        return (a1 + a2, w1 + w2 + 1)
    if f == "findall" and n in (3, 4):
        a, w = estimate_goal(args[1], est)
        return (1, w + a + 1)
    if f in ("bagof", "setof") and n == 3:
        a, w = estimate_goal(args[1], est)
        return (a, w + a * a + 1)
    if f == "^" and n == 2:
        return estimate_goal(args[1], est)
    if f == "forall" and n == 2:
        a1, w1 = estimate_goal(args[0], est); a2, w2 = estimate_goal(args[1], est)
        return (1, w1 + a1 * w2 + 1)
    if f == "setup_call_cleanup" and n == 3:
        a0, w0 = estimate_goal(args[0], est); a1, w1 = estimate_goal(args[1], est)
        return (a1, w0 + w1 + 2)
    if (f, n) in est:
        return est[(f, n)]
    return (1, 1)


def estimate_program(prog):
    est = {}
    keys = []
    for h, b in prog:
        k = (h[1], len(h[2]) if h[0] == "cmp" else 0)
        if k not in keys: keys.append(k)
    for k in keys:
        if k[0].endswith("app") or k[0].endswith("mem") or k[0].endswith("len"):
            est[k] = (5, 25)
    for k in reversed(keys):          # callees are defined after their callers
        if k in est: continue
        a, w = 0, 1
        for h, b in prog:
            if (h[1], len(h[2]) if h[0] == "cmp" else 0) == k:
                ab, wb = estimate_goal(b, est)
                a += ab; w += wb + 1
        est[k] = (a, w)
    return est


# ------------------------------------------------------------------ classification of disagreements (stable keys)
def has_cut_in_cond(t, in_cond=False):
    """a cut lexically inside the condition of an if-then(-else) (not hidden by a nested call/1, \\+ ...)"""
    if t[0] == "atom":
        return in_cond and t[1] == "!"
    if t[0] != "cmp":
        return False
    f, a = t[1], t[2]
    if f == "->" and len(a) == 2:
        return has_cut_in_cond(a[0], True) or has_cut_in_cond(a[1], in_cond)
    if f in (",", ";") and len(a) == 2:
        return has_cut_in_cond(a[0], in_cond) or has_cut_in_cond(a[1], in_cond)
    return any(has_cut_in_cond(x, False) for x in a)      # arguments of call/N, \\+, once, G = Goal ...


def has_const_compare(t):
    """an arithmetic comparison with a compound operand (its intermediate result is placed in an argument register that may
    still hold a live head variable: `f(X) :- 3 - 5 < X, true.`, `p(A,B) :- -(B) =:= A + 5, true.`)"""
    if t[0] != "cmp":
        return False
    if t[1] in ("<", "=<", ">", ">=", "=:=", "=\\=") and len(t[2]) == 2:
        a, b = t[2]
        if a[0] == "cmp" or b[0] == "cmp":
            return True
    return any(has_const_compare(x) for x in t[2])


def has_char_list(t):
    """a list cell whose head is a one-character atom (stored as a compact string by the implementation)"""
    if t[0] != "cmp":
        return False
    if t[1] == "." and len(t[2]) == 2 and t[2][0][0] == "atom" and len(t[2][0][1]) == 1:
        return True
    return any(has_char_list(x) for x in t[2])


def has_tail_elem_share(t):
    """a partial list whose tail variable is also one of its elements, e.g. [X|X] or [X,a,Y|X]"""
    if t[0] != "cmp":
        return False
    if t[1] == "." and len(t[2]) == 2:
        items, tail = terms.list_view(t)
        if tail[0] == "var" and any(x == tail for x in items):
            return True
    return any(has_tail_elem_share(x) for x in t[2])


def has_is_barevar(t):
    """X is Y with a bare variable on the right (segfaults / reads a garbage cell when Y is a permanent variable)"""
    if t[0] != "cmp":
        return False
    if t[1] == "is" and len(t[2]) == 2 and t[2][1][0] == "var":
        return True
    return any(has_is_barevar(x) for x in t[2])


def _contains_atom_or_functor(t, name):
    if t[0] == "atom": return t[1] == name
    if t[0] == "cmp": return t[1] == name or any(_contains_atom_or_functor(x, name) for x in t[2])
    return False


def has_naf_disj_cut(t):
    """\\+ over a goal that contains a cut, e.g. \\+ (! ; X = X) or !, p, \\+ (!, q(X)) (with a variable first seen inside and used later, the
    cut variable of the inlined \\+ is never allocated: CutPrev reads perm slot 0 and panics)"""
    if t[0] != "cmp":
        return False
    if t[1] == "\\+" and len(t[2]) == 1 and _contains_atom_or_functor(t[2][0], "!"):
        return True
    return any(has_naf_disj_cut(x) for x in t[2])


def panic_key(prog, q, msg):
    if "subtract with overflow" in msg and any(has_naf_disj_cut(t) for t in [q] + [b for _, b in prog]):
        return "naf-with-cut-inside-panics-subtract-overflow"
    if any(has_is_barevar(t) for t in [q] + [b for _, b in prog]) and ("crash" in msg or "evaluable" in msg):
        return "is-with-bare-permanent-variable-rhs-reads-garbage-or-segfaults"
    return "panic:" + msg[:48]


def uses_char_lists(prog, q):
    return any(has_char_list(t) for t in [q] + [h for h, _ in prog] + [b for _, b in prog])


def _non_ascii(t):
    if t[0] == "atom": return any(ord(c) > 127 for c in t[1])
    if t[0] == "cmp": return any(_non_ascii(x) for x in t[2])
    return False


def _atoms(t, acc):
    if t[0] == "atom": acc.add(t[1])
    elif t[0] == "cmp":
        acc.add(t[1])
        for x in t[2]: _atoms(x, acc)
    return acc


def _foreign_atoms(prog, q, answers):
    """atoms/functor names in the answers that occur nowhere in the program or the query: the answer was built from cells
    the program never wrote (what the compact-string corruption produces; which garbage is read varies from run to run)"""
    known = {"ans", ".", "[]"}
    for h, b in prog:
        _atoms(h, known); _atoms(b, known)
    _atoms(q, known)
    got = set()
    for a in answers: _atoms(a, got)
    return got - known


def failure_key(prog, q, obs=None):
    ts = [q] + [b for _, b in prog]
    if obs is not None and obs[0] == "ok" and obs[2] is not None and any(has_is_barevar(t) for t in ts) and \
            obs[2][0] == "cmp" and obs[2][1] == "error" and obs[2][2][0][0] == "cmp" and obs[2][2][0][1] == "type_error" and \
            obs[2][2][0][2][0] == ("atom", "evaluable"):
        return "is-with-bare-permanent-variable-rhs-reads-garbage-or-segfaults"
    if any(has_cut_in_cond(t) for t in ts):
        return "cut-in-if-then-else-condition-is-not-local"
    if any(has_const_compare(t) for t in ts):
        return "arithmetic-comparison-with-compound-operand-clobbers-argument-registers"
    if any(has_tail_elem_share(h) for h, _ in prog):
        return "clause-head-partial-list-with-tail-variable-as-element-loses-sharing"
    return "answers-differ"


# ------------------------------------------------------------------ generic differential run (C12, C25)
def run_differential(ctx, feats, nprog, check_fn="check_run", imports=IMPORTS, log=True, ok_codes=(0,), soft_codes=None,
                     est_limits=(120, 2000), make_queries=None, key_fn=None, timeout_ms=1500, nontrivial_fn=None, depth=None, corpus=None):
    """Random programs/queries with the given construct families -> implementation (both query paths) -> `check_fn` in Coq.
    ok_codes: result codes that mean agreement; soft_codes: {code: distribution label} counted as evaluated but not as agreement
    of the full observable.  Returns (evaluations, nontrivial set, dist, failures, tie_breaks, samples)."""
    rng = ctx.rng
    soft_codes = soft_codes or {5: "prefix_only_ambiguous_arith_error"}
    jobs, meta = [], {}
    dist = {"programs": 0, "regenerated_too_big": 0, "dropped_impl": 0, "dropped_model_nofuel": 0, "dropped_model_cyclic_or_unsupported": 0,
            "dropped_model_many_answers": 0, "with_exception": 0, "with_answers": 0, "no_answers": 0, "with_log": 0}
    # fixed corpus (systematic shapes the random generator reaches too rarely): runs first on every run
    for prog, queries in (corpus or []):
        jid = "j%d" % len(jobs)
        jobs.append({"id": jid, "text": HEADER + (LOG_DEFS if log else "") + program_text(prog), "queries": queries, "log": log})
        meta[jid] = (prog, queries)
    dist["corpus_programs"] = len(jobs)
    nprog += len(jobs)
    while len(jobs) < nprog:
        pfx = "j%d_" % len(jobs)
        g = ProgGen(rng, pfx, feats)
        if depth: g.depth_choices = depth
        prog = g.program()
        est = estimate_program(prog)
        queries = []
        for _ in range(3):
            q, t = (make_queries(g, rng) if make_queries else g.query())
            a, w = estimate_goal(q, est)
            if a <= est_limits[0] and w <= est_limits[1]:
                queries.append((q, t))
        if not queries:
            dist["regenerated_too_big"] += 1
            continue
        jid = "j%d" % len(jobs)
        jobs.append({"id": jid, "text": HEADER + (LOG_DEFS if log else "") + program_text(prog), "queries": queries, "log": log})
        meta[jid] = (prog, queries)
    dist["programs"] = len(jobs)
    obs = run_impl(ctx.prop, jobs, tag="impl", timeout_ms=timeout_ms)
    defs, exprs, info = {}, [], []
    failures, tie_breaks = [], []
    for j in jobs:
        prog, queries = meta[j["id"]]
        pname = "prog_" + j["id"]
        defs[pname] = ("program", program_coq(prog))
        for i, (q, t) in enumerate(queries):
            seen = {}
            for path, o in sorted(obs[j["id"]][i].items()):
                if o[0] == "panic":
                    exprs.append(check_expr(pname, q, t, ("ok", [], None, []), fn=check_fn))
                    info.append((j["id"], i, [path], o))
                    continue
                if o[0] != "ok":
                    dist["dropped_impl"] += 1
                    continue
                k = repr(o)
                if k in seen:
                    info[seen[k]][2].append(path)
                    continue
                seen[k] = len(exprs)
                exprs.append(check_expr(pname, q, t, o, fn=check_fn))
                info.append((j["id"], i, [path], o))
    codes, errs = coq_eval_codes(ctx.prop, imports, defs, exprs, chunk=250)
    for k, e in errs:
        tie_breaks.append({"kind": "coq-eval", "what": "model evaluation shard failed", "detail": e[-1500:]})
    evaluations, nontrivial, by_key = 0, set(), {}
    for c, (jid, i, paths, o) in zip(codes, info):
        if c is None: continue
        if c == 2: dist["dropped_model_nofuel"] += len(paths); continue
        if c == 3: dist["dropped_model_cyclic_or_unsupported"] += len(paths); continue
        if c == 4: dist["dropped_model_many_answers"] += len(paths); continue
        evaluations += len(paths)
        prog, queries = meta[jid]
        q, t = queries[i]
        if c in soft_codes:
            dist[soft_codes[c]] = dist.get(soft_codes[c], 0) + len(paths)
            if c == 5: continue
        if o[0] == "panic":
            key = panic_key(prog, q, o[1])
            by_key.setdefault(key, []).append((jid, i, paths, o))
            continue
        if c not in ok_codes and c not in soft_codes:
            key = (key_fn or failure_key)(prog, q, o)
            by_key.setdefault(key, []).append((jid, i, paths, o))
            continue
        if o[2] is not None: dist["with_exception"] += 1
        if o[1]: dist["with_answers"] += 1
        else: dist["no_answers"] += 1
        if o[3]: dist["with_log"] += 1
        if (nontrivial_fn(prog, q, o) if nontrivial_fn else (o[1] or o[2] is not None or o[3])):
            nontrivial.add((jid, i))
    for key, lst in sorted(by_key.items()):
        jid, i, paths, o = lst[0]
        prog, queries = meta[jid]
        q, t = queries[i]
        spec = show_model(ctx.prop, program_coq(prog), q, t) if o[0] != "panic" else "no panic"
        failures.append({"key": key, "count_in_this_run": len(lst), "paths": paths,
                         "what": "answers / exception / side-effect log of the implementation differ from the reference interpreter",
                         "input": program_text(prog) + "?- " + query_text(q, t),
                         "impl": (o[1][:300] if o[0] == "panic" else "answers=%s ball=%s log=%s" % ([pl(a) for a in o[1]], pl(o[2]) if o[2] else None, [pl(a) for a in o[3]])),
                         "spec": spec[:1500], "property_fails": True})
    dist["disagreements_by_key"] = {k: len(v) for k, v in by_key.items()}
    samples = []
    for j in jobs[:3]:
        prog, queries = meta[j["id"]]
        samples.append({"program": program_text(prog), "query": query_text(*queries[0]), "impl": repr(obs[j["id"]][0].get("clause"))[:300]})
    return evaluations, nontrivial, dist, failures, tie_breaks, samples
