// Modes that drive crate-internal code through scryer_prolog::verif_hooks.
// Line-oriented: `id<TAB>payload` in, `id<TAB>result` out.
use std::io::{BufRead, BufReader, Write};
use std::panic::{catch_unwind, AssertUnwindSafe};

use scryer_prolog::verif_hooks as vh;

fn unhex(s: &str) -> Vec<u8> {
    (0..s.len() / 2).map(|i| u8::from_str_radix(&s[2 * i..2 * i + 2], 16).unwrap_or(0)).collect()
}

fn panic_msg(e: Box<dyn std::any::Any + Send>) -> String {
    if let Some(s) = e.downcast_ref::<String>() {
        s.clone()
    } else if let Some(s) = e.downcast_ref::<&str>() {
        s.to_string()
    } else {
        "panic".to_string()
    }
}

fn for_lines(inp: &str, outp: &str, mut f: impl FnMut(&str) -> String) {
    let fin = std::fs::File::open(inp).expect("input");
    let mut out = std::io::BufWriter::new(std::fs::File::create(outp).expect("output"));
    std::panic::set_hook(Box::new(|_| {}));
    for line in BufReader::new(fin).lines() {
        let line = line.unwrap();
        let Some((id, payload)) = line.split_once('\t') else { continue };
        let r = catch_unwind(AssertUnwindSafe(|| f(payload)));
        let res = match r {
            Ok(s) => s,
            Err(e) => format!("panic:{}", panic_msg(e).replace(['\n', '\t'], " ")),
        };
        writeln!(out, "{}\t{}", id, res).unwrap();
    }
    out.flush().unwrap();
}

// payload: chunks as hex separated by '|' <TAB> script over p r b
fn charreader(payload: &str) -> String {
    let (chunks, script) = payload.split_once('\t').unwrap_or((payload, ""));
    let chunks: Vec<Vec<u8>> = if chunks.is_empty() { vec![] } else { chunks.split('|').map(unhex).collect() };
    vh::char_reader_run(chunks, script).join(" ")
}

// payload: capacity in cells <TAB> ops separated by ';'
//   P push_cell | S<hex> allocate_pstr | C<hex> allocate_cstr | W<byte loc> copy_pstr_within | R<n> reserve
//   E<lo>,<hi> copy_slice_to_end | T<n> truncate | Z<hex> compute_pstr_size | D dump bytes | N<byte loc> scan
// result per op: `<byte_len>,<byte_cap>,<flag or value>` separated by ';'
fn heap(payload: &str) -> String {
    let (cap, ops) = payload.split_once('\t').unwrap_or((payload, ""));
    let Some(mut h) = vh::VHeap::with_cell_capacity(cap.parse().unwrap_or(0)) else { return "alloc-failed".into() };
    let mut out = Vec::new();
    for op in ops.split(';').filter(|o| !o.is_empty()) {
        let (k, arg) = op.split_at(1);
        let v: String = match k {
            "P" => (h.push_cell() as u8).to_string(),
            "S" => (h.allocate_pstr(std::str::from_utf8(&unhex(arg)).unwrap_or("")) as u8).to_string(),
            "C" => (h.allocate_cstr(std::str::from_utf8(&unhex(arg)).unwrap_or("")) as u8).to_string(),
            "W" => match h.copy_pstr_within(arg.parse().unwrap_or(0)) { Some(t) => format!("t{}", t), None => "0".into() },
            "R" => (h.reserve(arg.parse().unwrap_or(0)) as u8).to_string(),
            "E" => {
                let (lo, hi) = arg.split_once(',').unwrap_or(("0", "0"));
                (h.copy_slice_to_end(lo.parse().unwrap_or(0), hi.parse().unwrap_or(0)) as u8).to_string()
            }
            "T" => { h.truncate(arg.parse().unwrap_or(0)); "1".into() }
            "F" => {
                // growth requests number from..from+count (counted from now) fail
                let (a, b) = arg.split_once(',').unwrap_or(("0", "0"));
                vh::set_heap_growth_failure(a.parse().unwrap_or(0), b.parse().unwrap_or(0));
                "1".into()
            }
            "Z" => vh::VHeap::compute_pstr_size(std::str::from_utf8(&unhex(arg)).unwrap_or("")).to_string(),
            "D" => h.bytes().iter().map(|b| format!("{:02x}", b)).collect(),
            "N" => { let (s, t) = h.scan(arg.parse().unwrap_or(0)); format!("{}:{}", s.bytes().map(|b| format!("{:02x}", b)).collect::<String>(), t) }
            _ => "?".into(),
        };
        out.push(format!("{},{},{}", h.byte_len(), h.byte_cap(), v));
    }
    vh::set_heap_growth_failure(0, 0);
    out.join(";")
}

// intern mode: every input line is one thread: `tid<TAB>hex;hex;...`; all threads start together.
fn intern(inp: &str, outp: &str) {
    let _guard = vh::atom_table_guard();
    let lines: Vec<(String, Vec<String>)> = BufReader::new(std::fs::File::open(inp).expect("input"))
        .lines()
        .filter_map(|l| {
            let l = l.ok()?;
            let (id, p) = l.split_once('\t')?;
            Some((id.to_string(), p.split(';').filter(|x| !x.is_empty() || true).map(|h| String::from_utf8_lossy(&unhex(h)).to_string()).collect()))
        })
        .collect();
    let barrier = std::sync::Arc::new(std::sync::Barrier::new(lines.len().max(1)));
    let mut handles = vec![];
    for (id, texts) in lines {
        let b = barrier.clone();
        handles.push(std::thread::spawn(move || {
            b.wait();
            let mut res = vec![];
            for t in &texts {
                let (idx, inl, back) = vh::intern_atom(t);
                res.push(format!("{}:{}:{}", idx, inl as u8, (back == *t) as u8));
            }
            (id, res.join(";"))
        }));
    }
    let mut out = std::io::BufWriter::new(std::fs::File::create(outp).expect("output"));
    for h in handles {
        match h.join() {
            Ok((id, r)) => writeln!(out, "{}\t{}", id, r).unwrap(),
            Err(e) => writeln!(out, "?\tpanic:{}", panic_msg(e)).unwrap(),
        }
    }
    out.flush().unwrap();
}

pub fn dispatch(mode: &str, args: &[String]) -> bool {
    match mode {
        "charreader" => for_lines(&args[0], &args[1], charreader),
        "heap" => for_lines(&args[0], &args[1], heap),
        "intern" => intern(&args[0], &args[1]),
        _ => return false,
    }
    true
}
