// Modes that drive crate-internal code through scryer_prolog::verif_hooks.
pub fn dispatch(_mode: &str, _args: &[String]) -> bool {
    false
}
