// vrun: drives the scryer-prolog implementation built from /repo's working tree
// (feature verif_hooks on) for the /verif correspondence checks.
//
//   vrun query <jobs.jsonl> <out.jsonl>
//
// Every job is executed under catch_unwind with a watchdog that raises the
// interrupt flag after the job's timeout and hard-exits the process (exit code
// 97, after flushing a "hang" record) if the machine does not react.

use std::io::{BufRead, BufReader, BufWriter, Write};
use std::panic::{catch_unwind, AssertUnwindSafe};
use std::sync::atomic::{AtomicU64, Ordering};
use std::sync::{Arc, Mutex};
use std::time::{Duration, Instant};

use scryer_prolog::{LeafAnswer, Machine, MachineBuilder, Term};
use serde_json::{json, Value};

mod hooks;

pub fn term_json(t: &Term) -> Value {
    match t {
        Term::Integer(i) => json!({"i": i.to_string()}),
        Term::Rational(r) => json!({"r": [r.numerator().to_string(), r.denominator().to_string()]}),
        Term::Float(f) => json!({"f": format!("{:016x}", f.to_bits())}),
        Term::Atom(a) => json!({"a": a}),
        Term::String(s) => json!({"s": s}),
        Term::List(l) => json!({"l": l.iter().map(term_json).collect::<Vec<_>>()}),
        Term::Compound(f, args) => {
            let mut v = vec![Value::String(f.clone())];
            v.extend(args.iter().map(term_json));
            json!({"c": v})
        }
        Term::Var(v) => json!({"v": v}),
        _ => json!({"unknown": format!("{:?}", t)}),
    }
}

fn answer_json(a: &Result<LeafAnswer, Term>) -> Value {
    match a {
        Ok(LeafAnswer::True) => json!("true"),
        Ok(LeafAnswer::False) => json!("false"),
        Ok(LeafAnswer::Exception(t)) => json!({"exc": term_json(t)}),
        Ok(LeafAnswer::LeafAnswer { bindings, .. }) => {
            let mut m = serde_json::Map::new();
            for (k, v) in bindings.iter() {
                m.insert(k.clone(), term_json(v));
            }
            json!({"b": m})
        }
        Err(t) => json!({"err": term_json(t)}),
    }
}

pub struct Watchdog {
    deadline_ms: Arc<AtomicU64>, // 0 = idle
    epoch: Arc<AtomicU64>,       // incremented by every arm()
    current: Arc<Mutex<String>>,
}

impl Watchdog {
    pub fn start(out_path: String) -> Self {
        let deadline_ms = Arc::new(AtomicU64::new(0));
        let current = Arc::new(Mutex::new(String::new()));
        let d = deadline_ms.clone();
        let c = current.clone();
        let epoch = Arc::new(AtomicU64::new(0));
        let ep = epoch.clone();
        let t0 = Instant::now();
        std::thread::spawn(move || {
            let mut raised_at: Option<u64> = None;
            let mut seen_epoch = 0u64;
            loop {
                std::thread::sleep(Duration::from_millis(20));
                let e = ep.load(Ordering::Relaxed);
                if e != seen_epoch {
                    seen_epoch = e;
                    raised_at = None;
                }
                let dl = d.load(Ordering::Relaxed);
                if dl == 0 {
                    raised_at = None;
                    continue;
                }
                let now = t0.elapsed().as_millis() as u64 + 1;
                if now > dl {
                    match raised_at {
                        None => {
                            scryer_prolog::verif_hooks::raise_interrupt();
                            raised_at = Some(now);
                        }
                        Some(r) if now > r + 3000 => {
                            // the machine did not react to the interrupt: record and die
                            let id = c.lock().unwrap().clone();
                            if let Ok(mut f) = std::fs::OpenOptions::new().append(true).open(&out_path) {
                                let _ = writeln!(f, "{}", json!({"id": id, "hang": true}));
                            }
                            std::process::exit(97);
                        }
                        _ => {}
                    }
                }
            }
        });
        // store t0 implicitly: deadlines are relative to watchdog start
        WATCHDOG_T0.get_or_init(|| t0);
        Watchdog { deadline_ms, epoch, current }
    }
    pub fn arm(&self, id: &str, timeout_ms: u64) {
        *self.current.lock().unwrap() = id.to_string();
        self.epoch.fetch_add(1, Ordering::Relaxed);
        let now = WATCHDOG_T0.get().unwrap().elapsed().as_millis() as u64 + 1;
        self.deadline_ms.store(now + timeout_ms, Ordering::Relaxed);
    }
    pub fn disarm(&self) {
        self.deadline_ms.store(0, Ordering::Relaxed);
        scryer_prolog::verif_hooks::clear_interrupt();
    }
}

static WATCHDOG_T0: std::sync::OnceLock<Instant> = std::sync::OnceLock::new();

fn new_machine() -> Machine {
    MachineBuilder::default().build()
}

fn consult_job(m: &mut Machine, job: &Value) {
    if let Some(c) = job.get("consult").and_then(|v| v.as_str()) {
        let module = job.get("module").and_then(|v| v.as_str()).unwrap_or("user");
        m.consult_module_string(module, c.to_string());
    }
    if let Some(c) = job.get("load").and_then(|v| v.as_str()) {
        let module = job.get("module").and_then(|v| v.as_str()).unwrap_or("user");
        m.load_module_string(module, c.to_string());
    }
}

fn panic_msg(e: Box<dyn std::any::Any + Send>) -> String {
    if let Some(s) = e.downcast_ref::<String>() {
        s.clone()
    } else if let Some(s) = e.downcast_ref::<&str>() {
        s.to_string()
    } else {
        "panic".to_string()
    }
}

fn run_one_query(m: &mut Machine, q: &str, max_answers: usize) -> Value {
    run_one_query_opts(m, q, max_answers, None, None).0
}

// growth = Some((from, count)): heap-growth requests from..from+count of this query fail;
// interrupt = Some(n): the interrupt flag is raised when instruction n of this query is dispatched.
// Returns the answers and (growth requests, dispatched instructions) counted during the query.
fn run_one_query_opts(
    m: &mut Machine,
    q: &str,
    max_answers: usize,
    growth: Option<(u64, u64)>,
    interrupt: Option<u64>,
) -> (Value, (u64, u64)) {
    let mut answers = Vec::new();
    let mut more = false;
    let (gf, gc) = growth.unwrap_or((0, 0));
    scryer_prolog::verif_hooks::set_heap_growth_failure(gf, gc);
    scryer_prolog::verif_hooks::set_interrupt_at_instruction(interrupt.unwrap_or(u64::MAX));
    struct Reset;
    impl Drop for Reset {
        fn drop(&mut self) {
            scryer_prolog::verif_hooks::set_heap_growth_failure(0, 0);
            scryer_prolog::verif_hooks::set_interrupt_at_instruction(u64::MAX);
            scryer_prolog::verif_hooks::clear_interrupt();
        }
    }
    let counters;
    {
        let _reset = Reset;
        let mut it = m.run_query(q.to_string());
        loop {
            if answers.len() >= max_answers {
                more = true;
                break;
            }
            match it.next() {
                None => break,
                Some(a) => {
                    let stop = a.is_err() || matches!(a, Ok(LeafAnswer::Exception(_)));
                    answers.push(answer_json(&a));
                    if stop {
                        break;
                    }
                }
            }
        }
        drop(it);
        counters = (
            scryer_prolog::verif_hooks::heap_growth_requests(),
            scryer_prolog::verif_hooks::dispatched_instructions(),
        );
    }
    if more {
        answers.push(json!("more"));
    }
    (Value::Array(answers), counters)
}

fn footprint_json(m: &Machine) -> Value {
    let mut o = serde_json::Map::new();
    for (k, v) in m.verif_footprint() {
        o.insert(k.to_string(), json!(v));
    }
    Value::Object(o)
}

// A job with "steps": [ {"consult": text, "module": m} | {"load": text, "module": m} |
//   {"q": goal, "take": k, "growth": [from, count], "interrupt": n} ... ] executed in order on one machine.
// Result: {"results": [...one per step...], "counters": [[growth requests, instructions] per step],
//          "footprints": [footprint after each step] (when job.footprint is true)}
fn run_steps(machine: &mut Option<Machine>, job: &Value) -> Value {
    let max_answers = job.get("max_answers").and_then(|v| v.as_u64()).unwrap_or(50) as usize;
    let want_fp = job.get("footprint").and_then(|v| v.as_bool()).unwrap_or(false);
    let mut results = Vec::new();
    let mut counters = Vec::new();
    let mut fps = Vec::new();
    for step in job.get("steps").and_then(|v| v.as_array()).cloned().unwrap_or_default() {
        if machine.is_none() {
            *machine = Some(new_machine());
        }
        let module = step.get("module").and_then(|v| v.as_str()).unwrap_or("user").to_string();
        let r = catch_unwind(AssertUnwindSafe(|| {
            let m = machine.as_mut().unwrap();
            if let Some(c) = step.get("consult").and_then(|v| v.as_str()) {
                m.consult_module_string(&module, c.to_string());
                (json!("ok"), (0, 0))
            } else if let Some(c) = step.get("load").and_then(|v| v.as_str()) {
                m.load_module_string(&module, c.to_string());
                (json!("ok"), (0, 0))
            } else {
                let q = step.get("q").and_then(|v| v.as_str()).unwrap_or("true.");
                let take = step.get("take").and_then(|v| v.as_u64()).map(|k| k as usize).unwrap_or(max_answers);
                let growth = step.get("growth").and_then(|v| v.as_array()).map(|a| {
                    (a[0].as_u64().unwrap_or(0), a[1].as_u64().unwrap_or(0))
                });
                let interrupt = step.get("interrupt").and_then(|v| v.as_u64());
                run_one_query_opts(m, q, take, growth, interrupt)
            }
        }));
        match r {
            Ok((v, c)) => {
                results.push(v);
                counters.push(json!([c.0, c.1]));
                if want_fp {
                    fps.push(footprint_json(machine.as_ref().unwrap()));
                }
            }
            Err(e) => {
                scryer_prolog::verif_hooks::set_heap_growth_failure(0, 0);
                scryer_prolog::verif_hooks::set_interrupt_at_instruction(u64::MAX);
                *machine = None;
                results.push(json!([{"panic": panic_msg(e)}]));
                counters.push(json!([0, 0]));
                if want_fp {
                    fps.push(Value::Null);
                }
            }
        }
    }
    json!({"results": results, "counters": counters, "footprints": fps})
}

// Every query runs under its own catch_unwind; after a panic the machine is rebuilt
// (and the job's program consulted again) before the next query.
fn run_queries(machine: &mut Option<Machine>, job: &Value) -> Value {
    let max_answers = job.get("max_answers").and_then(|v| v.as_u64()).unwrap_or(50) as usize;
    let r = catch_unwind(AssertUnwindSafe(|| consult_job(machine.as_mut().unwrap(), job)));
    if let Err(e) = r {
        *machine = None;
        return json!({"consult_panic": panic_msg(e)});
    }
    let mut results = Vec::new();
    if let Some(qs) = job.get("queries").and_then(|v| v.as_array()) {
        for q in qs {
            let q = q.as_str().unwrap_or("");
            if machine.is_none() {
                *machine = Some(new_machine());
                let _ = catch_unwind(AssertUnwindSafe(|| consult_job(machine.as_mut().unwrap(), job)));
            }
            let r = catch_unwind(AssertUnwindSafe(|| run_one_query(machine.as_mut().unwrap(), q, max_answers)));
            match r {
                Ok(v) => results.push(v),
                Err(e) => {
                    *machine = None;
                    results.push(json!([{"panic": panic_msg(e)}]));
                }
            }
        }
    }
    Value::Array(results)
}

fn mode_query(jobs_path: &str, out_path: &str) {
    let f = std::fs::File::open(jobs_path).expect("jobs file");
    std::fs::File::create(out_path).expect("out file");
    let wd = Watchdog::start(out_path.to_string());
    let mut machine: Option<Machine> = None;
    std::panic::set_hook(Box::new(|_| {}));
    for line in BufReader::new(f).lines() {
        let line = line.unwrap();
        if line.trim().is_empty() {
            continue;
        }
        let job: Value = serde_json::from_str(&line).expect("job json");
        let id = job.get("id").and_then(|v| v.as_str()).unwrap_or("").to_string();
        let fresh = job.get("fresh").and_then(|v| v.as_bool()).unwrap_or(false);
        let timeout_ms = job.get("timeout_ms").and_then(|v| v.as_u64()).unwrap_or(5000);
        if fresh || machine.is_none() {
            machine = Some(new_machine());
        }
        wd.arm(&id, timeout_ms);
        let t0 = Instant::now();
        let rec = if job.get("steps").is_some() {
            let mut r = run_steps(&mut machine, &job);
            wd.disarm();
            r["id"] = json!(id);
            r["ms"] = json!(t0.elapsed().as_millis() as u64);
            r
        } else {
            let res = run_queries(&mut machine, &job);
            wd.disarm();
            let ms = t0.elapsed().as_millis() as u64;
            json!({"id": id, "results": res, "ms": ms})
        };
        // append + flush per record so that a later hard exit loses nothing
        let mut out = BufWriter::new(std::fs::OpenOptions::new().append(true).open(out_path).unwrap());
        writeln!(out, "{}", rec).unwrap();
        out.flush().unwrap();
    }
}

fn main() {
    let args: Vec<String> = std::env::args().collect();
    if args.len() < 2 {
        eprintln!("usage: vrun <mode> ...");
        std::process::exit(2);
    }
    match args[1].as_str() {
        "query" => mode_query(&args[2], &args[3]),
        other => {
            if !hooks::dispatch(other, &args[2..]) {
                eprintln!("unknown mode {}", other);
                std::process::exit(2);
            }
        }
    }
}
